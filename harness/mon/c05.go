package mon

import (
	"fmt"
	"math/big"
)

// C05Order is the observed result of one order after a matching run, in exact
// integers. Price is the order's own limit price. Fills is the number of
// individual fills that were observed on the order (not inferred).
type C05Order struct {
	Buy      bool
	Pool     bool // produced by a pool (only used for labelling)
	Price    *big.Rat
	Amount   *big.Int
	Offer    *big.Int
	Open     *big.Int
	Paid     *big.Int
	Received *big.Int
	Fills    int
}

// C05Fail is one broken law. Order is the index of the offending order or -1
// for a law over the whole book.
type C05Fail struct {
	Law   string
	Order int
	What  string
}

// C05Laws decides the laws of property C05 for one matched book.
// diff is the quoteCoinDiff the matching function returned.
func C05Laws(orders []C05Order, diff *big.Int) (fails []C05Fail, fills int) {
	buyRecv, buyPaid := new(big.Int), new(big.Int)
	sellPaid, sellRecv := new(big.Int), new(big.Int)
	for _, o := range orders {
		fills += o.Fills
		if o.Buy {
			buyRecv.Add(buyRecv, o.Received)
			buyPaid.Add(buyPaid, o.Paid)
		} else {
			sellPaid.Add(sellPaid, o.Paid)
			sellRecv.Add(sellRecv, o.Received)
		}
	}
	add := func(law string, idx int, format string, a ...interface{}) {
		fails = append(fails, C05Fail{Law: law, Order: idx, What: fmt.Sprintf(format, a...)})
	}
	// base coin: buyers receive exactly what sellers pay
	baseOK := true
	switch c := buyRecv.Cmp(sellPaid); {
	case c > 0:
		baseOK = false
		add("base-not-conserved/buyers-received-more-than-sellers-paid", -1, "buyers received %s base, sellers paid %s base", buyRecv, sellPaid)
	case c < 0:
		baseOK = false
		add("base-not-conserved/sellers-paid-more-than-buyers-received", -1, "buyers received %s base, sellers paid %s base", buyRecv, sellPaid)
	}
	// quote coin: buyers paid - sellers received == returned diff, 0 <= diff < #fills
	q := new(big.Int).Sub(buyPaid, sellRecv)
	if diff == nil {
		add("quote-diff-missing", -1, "matched but no quoteCoinDiff returned; buyers paid %s sellers received %s", buyPaid, sellRecv)
	} else {
		if q.Cmp(diff) != 0 {
			add("quote-diff-mismatch", -1, "buyers paid %s - sellers received %s = %s but returned quoteCoinDiff is %s", buyPaid, sellRecv, q, diff)
		}
		if q.Sign() < 0 {
			add("quote-buyers-paid-less-than-sellers-received", -1, "buyers paid %s < sellers received %s", buyPaid, sellRecv)
		}
		// the dust bound presupposes equal base on both sides; a book that already
		// broke base conservation is reported under that law only
		if baseOK && q.Sign() >= 0 && q.Cmp(big.NewInt(int64(fills))) >= 0 {
			if fills == 0 {
				add("matched-without-fills", -1, "matched reported, dust %s, no individual fill observed", q)
			} else {
				add("quote-dust-not-below-fills", -1, "dust %s >= %d individual fills", q, fills)
			}
		}
	}
	for i, o := range orders {
		if o.Paid.Cmp(o.Offer) > 0 {
			add("paid-exceeds-offer", i, "paid %s > offer coin %s", o.Paid, o.Offer)
		}
		base := o.Received
		if !o.Buy {
			base = o.Paid
		}
		if o.Open.Sign() < 0 || base.Cmp(o.Amount) > 0 {
			add("filled-beyond-amount", i, "amount %s open %s base traded %s", o.Amount, o.Open, base)
		}
		f := new(big.Rat).SetInt64(int64(o.Fills))
		if o.Buy {
			// paid <= limit*received + fills
			lim := new(big.Rat).Mul(o.Price, new(big.Rat).SetInt(o.Received))
			lim.Add(lim, f)
			if new(big.Rat).SetInt(o.Paid).Cmp(lim) > 0 {
				add("buy-price-worse-than-limit", i, "paid %s > limit %s * received %s + %d fills", o.Paid, o.Price.FloatString(18), o.Received, o.Fills)
			}
		} else {
			// received >= limit*paid - fills
			lim := new(big.Rat).Mul(o.Price, new(big.Rat).SetInt(o.Paid))
			lim.Sub(lim, f)
			if new(big.Rat).SetInt(o.Received).Cmp(lim) < 0 {
				add("sell-price-worse-than-limit", i, "received %s < limit %s * paid %s - %d fills", o.Received, o.Price.FloatString(18), o.Paid, o.Fills)
			}
		}
		matched := o.Fills > 0 || o.Open.Cmp(o.Amount) < 0
		if matched && o.Received.Sign() <= 0 {
			add("matched-order-received-nothing", i, "filled %d times, open %s of %s, paid %s, received %s", o.Fills, o.Open, o.Amount, o.Paid, o.Received)
		}
	}
	return
}
