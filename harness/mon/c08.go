package mon

import "math/big"

// Exact arithmetic helpers for the lending monitor (C08).

var (
	decOne = new(big.Int).Exp(big.NewInt(10), big.NewInt(18), nil)
	// relative and absolute slack of the loan-to-value bound. The code path
	// performs at most ~8 fixed-point (18 decimals) roundings on quantities
	// whose unit values are >= 1e-3, i.e. a relative error far below 1e-14;
	// the absolute term covers the rounding of the final ratio.
	ltvRelSlack = big.NewRat(1, 100_000_000_000_000) // 1e-14
	ltvAbsSlack = big.NewRat(1, 1_000_000_000)       // 1e-9 (micro-USD)
)

// RatFromDec18 converts the integer representation of an 18-decimals fixed
// point number into an exact rational.
func RatFromDec18(i *big.Int) *big.Rat { return new(big.Rat).SetFrac(i, decOne) }

// FloorRat returns floor(r) for r >= 0 (and the mathematical floor for r < 0).
func FloorRat(r *big.Rat) *big.Int {
	q, m := new(big.Int).DivMod(r.Num(), r.Denom(), new(big.Int))
	_ = m
	return q
}

// LtvBound is collateralValue * ltv.
func LtvBound(collVal, ltv *big.Rat) *big.Rat { return new(big.Rat).Mul(collVal, ltv) }

// LtvExceeded reports whether debtVal exceeds collVal*ltv by more than the
// interval slack that the fixed-point roundings on the code path can explain.
func LtvExceeded(debtVal, collVal, ltv *big.Rat) bool {
	b := LtvBound(collVal, ltv)
	lim := new(big.Rat).Mul(b, new(big.Rat).Add(big.NewRat(1, 1), ltvRelSlack))
	lim.Add(lim, ltvAbsSlack)
	return debtVal.Cmp(lim) > 0
}

// MaxUnits returns the largest integer n with n*unit <= bound (unit > 0).
func MaxUnits(bound, unit *big.Rat) *big.Int {
	if unit.Sign() <= 0 || bound.Sign() <= 0 {
		return new(big.Int)
	}
	return FloorRat(new(big.Rat).Quo(bound, unit))
}
