package sim

import (
	"encoding/json"
	"fmt"

	wasmvmtypes "github.com/CosmWasm/wasmvm/types"
	sdk "github.com/cosmos/cosmos-sdk/types"

	cwasm "github.com/comdex-official/comdex/app/wasm"
	"github.com/comdex-official/comdex/app/wasm/bindings"
)

// GovContract is the address the harness uses as "governance contract" sender.
// On chain ids other than comdex-1 / comdex-test3 the custom messenger accepts
// any contract, exactly like a local/dev network.
var GovContract = sdk.AccAddress([]byte("verif-gov-contract--"))

// Messenger builds the chain's custom contract->chain messenger over the real keepers.
func (c *Chain) Messenger() interface {
	DispatchMsg(ctx sdk.Context, contractAddr sdk.AccAddress, contractIBCPortID string, msg wasmvmtypes.CosmosMsg) ([]sdk.Event, [][]byte, error)
} {
	a := c.App
	return cwasm.CustomMessageDecorator(a.LockerKeeper, a.Rewardskeeper, a.AssetKeeper, a.CollectorKeeper, a.LiquidationKeeper,
		a.AuctionKeeper, a.TokenmintKeeper, a.EsmKeeper, a.VaultKeeper, a.LiquidityKeeper)(nil)
}

// Gov dispatches a custom contract message through the real CustomMessenger on the open block's state.
func (c *Chain) Gov(m bindings.ComdexMessages) error {
	return c.GovFrom(c.Ctx(), GovContract, m)
}

func (c *Chain) GovFrom(ctx sdk.Context, sender sdk.AccAddress, m bindings.ComdexMessages) error {
	bz, err := json.Marshal(m)
	if err != nil {
		return err
	}
	// like the transaction of the contract that emits the message: all-or-nothing, a panic fails it
	cctx, write := ctx.CacheContext()
	func() {
		defer func() {
			if p := recover(); p != nil {
				err = fmt.Errorf("contract message panicked: %v", p)
			}
		}()
		_, _, err = c.Messenger().DispatchMsg(cctx, sender, "", wasmvmtypes.CosmosMsg{Custom: bz})
	}()
	if err == nil {
		write()
	}
	return err
}
