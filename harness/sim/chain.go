// Package sim drives a real comdex application instance: deterministic
// genesis, signed transactions through DeliverTx, real ABCI blocks.
package sim

import (
	"crypto/sha256"
	"encoding/json"
	"fmt"
	"math/rand"
	"os"
	"path/filepath"
	"runtime/debug"
	"sync"
	"time"

	sdkmath "cosmossdk.io/math"
	dbm "github.com/cometbft/cometbft-db"
	abci "github.com/cometbft/cometbft/abci/types"
	"github.com/cometbft/cometbft/crypto/ed25519"
	"github.com/cosmos/cosmos-sdk/baseapp"
	"github.com/cometbft/cometbft/libs/log"
	tmproto "github.com/cometbft/cometbft/proto/tendermint/types"
	tmtypes "github.com/cometbft/cometbft/types"
	codectypes "github.com/cosmos/cosmos-sdk/codec/types"
	cryptocodec "github.com/cosmos/cosmos-sdk/crypto/codec"
	"github.com/cosmos/cosmos-sdk/crypto/keys/secp256k1"
	cryptotypes "github.com/cosmos/cosmos-sdk/crypto/types"
	simtestutil "github.com/cosmos/cosmos-sdk/testutil/sims"
	sdk "github.com/cosmos/cosmos-sdk/types"
	authtypes "github.com/cosmos/cosmos-sdk/x/auth/types"
	banktypes "github.com/cosmos/cosmos-sdk/x/bank/types"
	stakingtypes "github.com/cosmos/cosmos-sdk/x/staking/types"

	chain "github.com/comdex-official/comdex/app"
	markettypes "github.com/comdex-official/comdex/x/market/types"
)

var (
	prefixOnce sync.Once
	homeOnce   sync.Once
	homeRoot   string
	homeSeq    int
	homeMu     sync.Mutex
)

// InitProcess mirrors what cmd/comdex/main.go does once per process.
func InitProcess() {
	prefixOnce.Do(func() { chain.SetAccountAddressPrefixes() })
}

func newHome() string {
	homeOnce.Do(func() {
		d, err := os.MkdirTemp("", "verif-home-")
		if err != nil {
			panic(err)
		}
		homeRoot = d
	})
	homeMu.Lock()
	homeSeq++
	n := homeSeq
	homeMu.Unlock()
	p := filepath.Join(homeRoot, fmt.Sprintf("n%d", n))
	_ = os.MkdirAll(p, 0o755)
	return p
}

// Cleanup removes the per-process node homes.
func Cleanup() {
	if homeRoot != "" {
		_ = os.RemoveAll(homeRoot)
	}
}

var GenesisTime = time.Date(2024, 1, 1, 0, 0, 0, 0, time.UTC)

type Acct struct {
	Name string
	Priv cryptotypes.PrivKey
	Addr sdk.AccAddress
	Num  uint64
	Seq  uint64
}

func (a *Acct) String() string { return a.Addr.String() }

func MakeAcct(i int) *Acct {
	h := sha256.Sum256([]byte(fmt.Sprintf("verif-acct-%d", i)))
	priv := &secp256k1.PrivKey{Key: h[:]}
	return &Acct{Name: fmt.Sprintf("u%d", i), Priv: priv, Addr: sdk.AccAddress(priv.PubKey().Address())}
}

type Options struct {
	ChainID  string
	NAccts   int
	Balances sdk.Coins // every account gets these at genesis
	// InitialHeight of the chain (default 1): lets a workload start close to a height at which a periodic hook fires
	InitialHeight int64
}

type Chain struct {
	App     *chain.App
	DB      dbm.DB
	ChainID string
	Enc     chain.EncodingConfig
	Accts   []*Acct
	Header  tmproto.Header // header of the block currently open
	ValSet  *tmtypes.ValidatorSet
	rnd     *rand.Rand
	Home    string

	// PanicHook is called when BeginBlock/EndBlock panics (C15 panic-escape monitor).
	PanicHook func(phase string, height int64, r interface{})
	Blocks    int64
	Txs       int64
	// LastPanicStack holds the goroutine stack of the last Begin/EndBlock panic.
	LastPanicStack string
	lastBegin time.Time
	// Tape, when non-nil, records the stream of transactions / block boundaries / environment actions (C16, C20).
	Tape *Tape
}

type TxResult struct {
	Code   uint32
	Log    string
	Events []abci.Event
	Data   []byte
	Gas    int64
}

func (r TxResult) OK() bool { return r.Code == 0 }

func consensusParams() *tmproto.ConsensusParams {
	return &tmproto.ConsensusParams{
		Block:     &tmproto.BlockParams{MaxBytes: 22020096, MaxGas: -1},
		Evidence:  &tmproto.EvidenceParams{MaxAgeNumBlocks: 302400, MaxAgeDuration: 504 * time.Hour, MaxBytes: 10000},
		Validator: &tmproto.ValidatorParams{PubKeyTypes: []string{tmtypes.ABCIPubKeyTypeEd25519}},
	}
}

func newApp(db dbm.DB, home, chainID string) *chain.App {
	return chain.New(log.NewNopLogger(), db, nil, true, map[int64]bool{}, home, 5, chain.MakeEncodingConfig(),
		simtestutil.EmptyAppOptions{}, chain.GetWasmEnabledProposals(), chain.EmptyWasmOpts, baseapp.SetChainID(chainID))
}

func valSet() *tmtypes.ValidatorSet {
	priv := ed25519.GenPrivKeyFromSecret([]byte("verif-validator"))
	v := tmtypes.NewValidator(priv.PubKey(), 1)
	return tmtypes.NewValidatorSet([]*tmtypes.Validator{v})
}

// New builds an instance with a deterministic genesis and opens block 1.
func New(o Options) *Chain {
	InitProcess()
	if o.ChainID == "" {
		o.ChainID = "testing"
	}
	if o.NAccts == 0 {
		o.NAccts = 8
	}
	c := &Chain{ChainID: o.ChainID, DB: dbm.NewMemDB(), Enc: chain.MakeEncodingConfig(), rnd: rand.New(rand.NewSource(1)), Home: newHome()}
	c.App = newApp(c.DB, c.Home, o.ChainID)
	c.ValSet = valSet()
	gs := chain.NewDefaultGenesisState(c.App.AppCodec())
	cdc := c.App.AppCodec()

	var genAccs []authtypes.GenesisAccount
	var balances []banktypes.Balance
	for i := 0; i < o.NAccts; i++ {
		a := MakeAcct(i)
		a.Num = uint64(i)
		c.Accts = append(c.Accts, a)
		genAccs = append(genAccs, authtypes.NewBaseAccount(a.Addr, a.Priv.PubKey(), uint64(i), 0))
		coins := sdk.NewCoins(sdk.NewCoin("ucmdx", sdk.NewInt(1_000_000_000_000))).Add(o.Balances...)
		balances = append(balances, banktypes.Balance{Address: a.Addr.String(), Coins: coins})
	}
	gs[authtypes.ModuleName] = cdc.MustMarshalJSON(authtypes.NewGenesisState(authtypes.DefaultParams(), genAccs))

	bondAmt := sdk.DefaultPowerReduction
	var validators []stakingtypes.Validator
	var delegations []stakingtypes.Delegation
	for _, val := range c.ValSet.Validators {
		pk, err := cryptocodec.FromTmPubKeyInterface(val.PubKey)
		must(err)
		pkAny, err := codectypes.NewAnyWithValue(pk)
		must(err)
		validators = append(validators, stakingtypes.Validator{
			OperatorAddress: sdk.ValAddress(val.Address).String(), ConsensusPubkey: pkAny, Status: stakingtypes.Bonded,
			Tokens: bondAmt, DelegatorShares: sdkmath.LegacyOneDec(), UnbondingTime: time.Unix(0, 0).UTC(),
			Commission:        stakingtypes.NewCommission(sdkmath.LegacyZeroDec(), sdkmath.LegacyZeroDec(), sdkmath.LegacyZeroDec()),
			MinSelfDelegation: sdkmath.ZeroInt(),
		})
		delegations = append(delegations, stakingtypes.NewDelegation(genAccs[0].GetAddress(), val.Address.Bytes(), sdkmath.LegacyOneDec()))
	}
	sp := stakingtypes.DefaultParams()
	sp.BondDenom = "ucmdx"
	gs[stakingtypes.ModuleName] = cdc.MustMarshalJSON(stakingtypes.NewGenesisState(sp, validators, delegations))
	balances = append(balances, banktypes.Balance{Address: authtypes.NewModuleAddress(stakingtypes.BondedPoolName).String(), Coins: sdk.Coins{sdk.NewCoin("ucmdx", bondAmt)}})
	total := sdk.NewCoins()
	for _, b := range balances {
		total = total.Add(b.Coins...)
	}
	gs[banktypes.ModuleName] = cdc.MustMarshalJSON(banktypes.NewGenesisState(banktypes.DefaultGenesisState().Params, balances, total, []banktypes.Metadata{}, []banktypes.SendEnabled{}))

	state, err := json.Marshal(gs)
	must(err)
	c.App.InitChain(abci.RequestInitChain{ChainId: o.ChainID, Validators: []abci.ValidatorUpdate{}, ConsensusParams: consensusParams(), AppStateBytes: state, Time: GenesisTime, InitialHeight: initialHeight(o)})
	c.App.Commit()
	c.Header = tmproto.Header{ChainID: o.ChainID, Height: c.App.LastBlockHeight() + 1, AppHash: c.App.LastCommitID().Hash,
		ValidatorsHash: c.ValSet.Hash(), NextValidatorsHash: c.ValSet.Hash(), Time: GenesisTime.Add(5 * time.Second),
		ProposerAddress: c.ValSet.Validators[0].Address}
	c.begin()
	return c
}

// FromGenesis boots a fresh instance from exported genesis (C20) and opens the next block.
func FromGenesis(chainID string, appState []byte, initialHeight int64, t time.Time, accts []*Acct) *Chain {
	InitProcess()
	c := &Chain{ChainID: chainID, DB: dbm.NewMemDB(), Enc: chain.MakeEncodingConfig(), rnd: rand.New(rand.NewSource(1)), Home: newHome()}
	c.App = newApp(c.DB, c.Home, chainID)
	c.ValSet = valSet()
	for _, a := range accts {
		cp := *a
		c.Accts = append(c.Accts, &cp)
	}
	c.App.InitChain(abci.RequestInitChain{ChainId: chainID, Validators: []abci.ValidatorUpdate{}, ConsensusParams: consensusParams(), AppStateBytes: appState, Time: t, InitialHeight: initialHeight})
	c.App.Commit()
	c.Header = tmproto.Header{ChainID: chainID, Height: c.App.LastBlockHeight() + 1, AppHash: c.App.LastCommitID().Hash,
		ValidatorsHash: c.ValSet.Hash(), NextValidatorsHash: c.ValSet.Hash(), Time: t,
		ProposerAddress: c.ValSet.Validators[0].Address}
	return c
}

func initialHeight(o Options) int64 {
	if o.InitialHeight > 1 {
		return o.InitialHeight
	}
	return 1
}

func must(err error) {
	if err != nil {
		panic(err)
	}
}

func (c *Chain) begin() {
	defer func() {
		if r := recover(); r != nil {
			if c.PanicHook != nil {
				c.LastPanicStack = string(debug.Stack())
				c.PanicHook("BeginBlock", c.Header.Height, r)
			} else {
				panic(r)
			}
		}
	}()
	c.App.BeginBlock(abci.RequestBeginBlock{Header: c.Header})
	if c.Tape != nil {
		c.Tape.Recs = append(c.Tape.Recs, TapeRec{Kind: "block", Dt: int64(c.Header.Time.Sub(c.lastBegin)), AppHash: fmt.Sprintf("%x", c.App.LastCommitID().Hash), Height: c.Header.Height})
	}
	c.lastBegin = c.Header.Time
}

// Begin opens the block described by c.Header (used after FromGenesis).
func (c *Chain) Begin() { c.begin() }

// Ctx returns a context over the deliver state of the open block. Writes made
// through it are committed with the block (this is how privileged set-up that
// governance / wasm bindings would do is applied).
func (c *Chain) Ctx() sdk.Context {
	return c.App.BaseApp.NewContext(false, c.Header)
}

// NextBlock ends the open block, commits and opens the next one dt later.
func (c *Chain) NextBlock(dt time.Duration) {
	c.EndAndCommit()
	c.Header.Time = c.Header.Time.Add(dt)
	c.begin()
}

// EndAndCommit ends the current block, commits, and prepares (but does not begin) the next header.
func (c *Chain) EndAndCommit() {
	func() {
		defer func() {
			if r := recover(); r != nil {
				if c.PanicHook != nil {
					c.LastPanicStack = string(debug.Stack())
					c.PanicHook("EndBlock", c.Header.Height, r)
				} else {
					panic(r)
				}
			}
		}()
		c.App.EndBlock(abci.RequestEndBlock{Height: c.Header.Height})
	}()
	c.App.Commit()
	c.Blocks++
	c.Header = tmproto.Header{ChainID: c.ChainID, Height: c.App.LastBlockHeight() + 1, AppHash: c.App.LastCommitID().Hash,
		ValidatorsHash: c.ValSet.Hash(), NextValidatorsHash: c.ValSet.Hash(), Time: c.Header.Time,
		ProposerAddress: c.ValSet.Validators[0].Address}
}

// BuildTx signs msgs with the signer's current sequence.
func (c *Chain) BuildTx(signer *Acct, msgs ...sdk.Msg) []byte {
	tx, err := simtestutil.GenSignedMockTx(c.rnd, c.Enc.TxConfig, msgs, sdk.NewCoins(), 500_000_000, c.ChainID,
		[]uint64{signer.Num}, []uint64{signer.Seq}, signer.Priv)
	must(err)
	bz, err := c.Enc.TxConfig.TxEncoder()(tx)
	must(err)
	return bz
}

// DeliverRaw delivers encoded tx bytes.
func (c *Chain) DeliverRaw(bz []byte) TxResult {
	res := c.App.DeliverTx(abci.RequestDeliverTx{Tx: bz})
	c.Txs++
	out := TxResult{Code: res.Code, Log: res.Log, Events: res.Events, Data: res.Data, Gas: res.GasUsed}
	if c.Tape != nil {
		c.Tape.Recs = append(c.Tape.Recs, TapeRec{Kind: "tx", Tx: bz, Result: ResultDigest(out), ResultNoGas: ResultDigestNoGas(out)})
	}
	return out
}

// Deliver signs and delivers msgs as one real transaction.
func (c *Chain) Deliver(signer *Acct, msgs ...sdk.Msg) TxResult {
	bz := c.BuildTx(signer, msgs...)
	res := c.DeliverRaw(bz)
	// the ante handler increments the sequence once signature verification
	// passed, whether or not the messages succeed; read it back to stay in sync
	if acc := c.App.AccountKeeper.GetAccount(c.Ctx(), signer.Addr); acc != nil {
		signer.Seq = acc.GetSequence()
	}
	return res
}

// Bal returns the balance of addr in denom on the deliver state.
func (c *Chain) Bal(addr sdk.AccAddress, denom string) sdkmath.Int {
	return c.App.BankKeeper.GetBalance(c.Ctx(), addr, denom).Amount
}

func (c *Chain) ModAddr(name string) sdk.AccAddress { return authtypes.NewModuleAddress(name) }

func (c *Chain) Supply(denom string) sdkmath.Int {
	return c.App.BankKeeper.GetSupply(c.Ctx(), denom).Amount
}

// Close releases the instance's resources.
func (c *Chain) Close() {
	_ = c.DB.Close()
	_ = os.RemoveAll(c.Home)
}

// SetTwa writes a published price record directly (the harness's "direct price
// feeder") and records the action on the tape.
func (c *Chain) SetTwa(t markettypes.TimeWeightedAverage) {
	if c.Tape != nil {
		bz, _ := json.Marshal(t)
		c.Tape.Recs = append(c.Tape.Recs, TapeRec{Kind: "env", Env: "twa", Args: []string{string(bz)}})
	}
	c.App.MarketKeeper.SetTwa(c.Ctx(), t)
}

// ApplyEnv re-applies a recorded environment action.
func (c *Chain) ApplyEnv(r TapeRec) {
	switch r.Env {
	case "twa":
		var t markettypes.TimeWeightedAverage
		if err := json.Unmarshal([]byte(r.Args[0]), &t); err != nil {
			panic(err)
		}
		c.App.MarketKeeper.SetTwa(c.Ctx(), t)
	default:
		panic("unknown env record " + r.Env)
	}
}

// ReplayRec applies one tape record; for tx records it returns the result.
func (c *Chain) ReplayRec(r TapeRec) (TxResult, bool) {
	switch r.Kind {
	case "tx":
		return c.DeliverRaw(r.Tx), true
	case "block":
		c.NextBlock(time.Duration(r.Dt))
	case "env":
		c.ApplyEnv(r)
	}
	return TxResult{}, false
}
