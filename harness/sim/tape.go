package sim

import (
	"crypto/sha256"
	"encoding/hex"
	"fmt"
	"sort"
)

// TapeRec is one element of a recorded execution stream.
type TapeRec struct {
	Kind    string   `json:"k"`           // "tx", "block", "env"
	Tx      []byte   `json:"tx,omitempty"`
	Result  string   `json:"r,omitempty"` // digest of code, data, gas used and events of the recorded execution
	ResultNoGas string `json:"rg,omitempty"`
	Dt      int64    `json:"dt,omitempty"`
	AppHash string   `json:"h,omitempty"` // app hash committed right before this block began
	Height  int64    `json:"ht,omitempty"`
	Env     string   `json:"e,omitempty"` // environment action name
	Args    []string `json:"a,omitempty"`
	Stores  map[string]string `json:"s,omitempty"` // per-store dump hashes after the block began (sampled)
}

type Tape struct {
	Recs []TapeRec `json:"recs"`
}

// ResultDigestNoGas is ResultDigest without the gas used (gas legitimately depends on
// history / index stores that a genesis round trip does not carry).
func ResultDigestNoGas(r TxResult) string {
	r.Gas = 0
	return ResultDigest(r)
}

// ResultDigest is a canonical digest of everything a transaction result exposes.
func ResultDigest(r TxResult) string {
	h := sha256.New()
	fmt.Fprintf(h, "%d|%x|%d|", r.Code, r.Data, r.Gas)
	// the free-text log is not part of the result: for recovered panics it carries a goroutine stack with addresses
	for _, e := range r.Events {
		fmt.Fprintf(h, "E:%s", e.Type)
		attrs := make([]string, 0, len(e.Attributes))
		for _, a := range e.Attributes {
			attrs = append(attrs, a.Key+"="+a.Value)
		}
		// attribute order is part of the result
		for _, a := range attrs {
			fmt.Fprintf(h, "|%s", a)
		}
	}
	return hex.EncodeToString(h.Sum(nil))[:32]
}

// SortedNames returns the sorted keys of a map (helper for deterministic output).
func SortedNames(m map[string]string) []string {
	out := make([]string, 0, len(m))
	for k := range m {
		out = append(out, k)
	}
	sort.Strings(out)
	return out
}
