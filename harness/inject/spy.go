// Package inject holds the harness-side fault-injection machinery: the spy
// multistore that makes every wrapped per-item step of the block hooks visible
// (branch / KV operation / write events) and can turn the k-th store access
// inside a chosen step into a panic, with no change to the repository.
package inject

import (
	"crypto/sha256"
	"encoding/hex"
	"fmt"
	"runtime"
	"sort"
	"strings"

	storetypes "github.com/cosmos/cosmos-sdk/store/types"
	sdk "github.com/cosmos/cosmos-sdk/types"
)

type cms = storetypes.CacheMultiStore

// Step is one branch of the multistore (one CacheContext call).
type Step struct {
	ID        int
	Parent    int    // 0 = the root fork
	Site      string // caller of Context.CacheContext (function name)
	Wrapped   bool   // opened by types.ApplyFuncIfNoError
	Caller    string // the function that called ApplyFuncIfNoError
	Ops       int    // KV operations issued directly on this branch
	Writes    []string
	Written   bool // Write() was called: the step committed
	OuterWr   int  // writes issued on an enclosing branch while this step was running
	OuterKeys []string
	Finished  bool
}

// Spy records what happens on a tree of multistore branches.
type Spy struct {
	Steps  []*Step
	active []int // stack of currently open branch ids (innermost last)
	// injection plan: panic before delegating the K-th operation of the step with ordinal TargetOrd (1-based among wrapped steps)
	TargetOrd  int
	TargetK    int
	wrappedOrd int
	Fired      bool
	FiredAt    string
	ordOf      map[int]int
	// OnOp, when set, sees every KV operation issued through decorated stores (store name, kind, key).
	OnOp func(store, kind string, key []byte)
}

func NewSpy() *Spy { return &Spy{ordOf: map[int]int{}} }

// InjectedPanic is the value panicked with by the injector.
type InjectedPanic struct{ Where string }

func (p InjectedPanic) Error() string { return "verif: injected store fault at " + p.Where }

func (s *Spy) step(id int) *Step {
	if id <= 0 || id > len(s.Steps) {
		return nil
	}
	return s.Steps[id-1]
}

// WrappedSteps returns the steps opened by ApplyFuncIfNoError in order of opening.
func (s *Spy) WrappedSteps() []*Step {
	var out []*Step
	for _, st := range s.Steps {
		if st.Wrapped {
			out = append(out, st)
		}
	}
	return out
}

// SpyMS decorates one CacheMultiStore.
type SpyMS struct {
	cms
	spy *Spy
	id  int // 0 for the root fork
}

// Root wraps the root fork.
func (s *Spy) Root(inner storetypes.CacheMultiStore) *SpyMS { return &SpyMS{cms: inner, spy: s, id: 0} }

func callerInfo() (site string, wrapped bool, caller string) {
	pcs := make([]uintptr, 24)
	n := runtime.Callers(3, pcs)
	frames := runtime.CallersFrames(pcs[:n])
	var names []string
	for {
		f, more := frames.Next()
		names = append(names, f.Function)
		if !more {
			break
		}
	}
	for i, nm := range names {
		if strings.HasSuffix(nm, "types.Context.CacheContext") {
			if i+1 < len(names) {
				site = names[i+1]
				if strings.HasSuffix(site, "comdex/types.ApplyFuncIfNoError") {
					wrapped = true
					if i+2 < len(names) {
						caller = names[i+2]
					}
				}
			}
			return
		}
	}
	if len(names) > 0 {
		site = names[0]
	}
	return
}

func (m *SpyMS) CacheMultiStore() storetypes.CacheMultiStore {
	site, wrapped, caller := callerInfo()
	inner := m.cms.CacheMultiStore()
	st := &Step{ID: len(m.spy.Steps) + 1, Parent: m.id, Site: site, Wrapped: wrapped, Caller: shortFn(caller)}
	m.spy.Steps = append(m.spy.Steps, st)
	if wrapped {
		m.spy.wrappedOrd++
		m.spy.ordOf[st.ID] = m.spy.wrappedOrd
	}
	// a new branch makes every branch opened after its parent inactive (they returned)
	m.spy.popTo(m.id)
	m.spy.active = append(m.spy.active, st.ID)
	return &SpyMS{cms: inner, spy: m.spy, id: st.ID}
}

func (s *Spy) popTo(id int) {
	for len(s.active) > 0 && s.active[len(s.active)-1] != id {
		if st := s.step(s.active[len(s.active)-1]); st != nil {
			st.Finished = true
		}
		s.active = s.active[:len(s.active)-1]
	}
}

func (m *SpyMS) Write() {
	if st := m.spy.step(m.id); st != nil {
		st.Written = true
	}
	m.cms.Write()
	m.spy.popTo(m.id)
	// the branch itself is done after its write
	if len(m.spy.active) > 0 && m.spy.active[len(m.spy.active)-1] == m.id {
		m.spy.active = m.spy.active[:len(m.spy.active)-1]
		if st := m.spy.step(m.id); st != nil {
			st.Finished = true
		}
	}
}

func (m *SpyMS) GetKVStore(key storetypes.StoreKey) storetypes.KVStore {
	return &spyKV{KVStore: m.cms.GetKVStore(key), ms: m, name: key.Name()}
}

func (m *SpyMS) GetStore(key storetypes.StoreKey) storetypes.Store {
	return m.cms.GetStore(key)
}

type spyKV struct {
	storetypes.KVStore
	ms   *SpyMS
	name string
}

func shortFn(f string) string {
	if i := strings.LastIndex(f, "/"); i >= 0 {
		return f[i+1:]
	}
	return f
}

// wrappedDepth is the number of ApplyFuncIfNoError steps on the path from the root to id (inclusive).
func (s *Spy) wrappedDepth(id int) int {
	d := 0
	for id != 0 {
		st := s.step(id)
		if st == nil {
			break
		}
		if st.Wrapped {
			d++
		}
		id = st.Parent
	}
	return d
}

// applyFramesOnStack counts the ApplyFuncIfNoError frames of the current goroutine stack.
func applyFramesOnStack() int {
	pcs := make([]uintptr, 96)
	n := runtime.Callers(3, pcs)
	frames := runtime.CallersFrames(pcs[:n])
	c := 0
	for {
		f, more := frames.Next()
		if strings.HasSuffix(f.Function, "comdex/types.ApplyFuncIfNoError") {
			c++
		}
		if !more {
			break
		}
	}
	return c
}

// op is called before every KV operation issued through this branch.
func (k *spyKV) op(kind string, key []byte, write bool) {
	s := k.ms.spy
	if s.OnOp != nil {
		s.OnOp(k.name, kind, key)
	}
	// the innermost open branch; branches that returned without Write() are only
	// noticed here: their ApplyFuncIfNoError frame is no longer on the stack
	if len(s.active) > 0 && s.active[len(s.active)-1] != k.ms.id {
		n := applyFramesOnStack()
		for len(s.active) > 0 && s.active[len(s.active)-1] != k.ms.id {
			top := s.step(s.active[len(s.active)-1])
			if top != nil && top.Wrapped && s.wrappedDepth(top.ID) <= n {
				break // still running: this operation is issued from inside that step on another branch
			}
			if top != nil && !top.Wrapped {
				break // cannot decide for branches not opened by the wrapper; leave them
			}
			if top != nil {
				top.Finished = true
			}
			s.active = s.active[:len(s.active)-1]
		}
		if len(s.active) > 0 {
			inner := s.active[len(s.active)-1]
			if inner != k.ms.id && write {
				if st := s.step(inner); st != nil && st.Wrapped && isAncestor(s, k.ms.id, inner) {
					// a write on an enclosing branch issued while a wrapped step is running:
					// it would survive a failure of that step
					st.OuterWr++
					st.OuterKeys = append(st.OuterKeys, k.name+"/"+hex.EncodeToString(key))
				}
			}
		}
	}
	st := s.step(k.ms.id)
	if st == nil {
		return
	}
	st.Ops++
	if write {
		st.Writes = append(st.Writes, k.name+"/"+hex.EncodeToString(key))
	}
	if s.TargetOrd > 0 && !s.Fired && st.Wrapped && s.ordOf[st.ID] == s.TargetOrd && st.Ops == s.TargetK {
		s.Fired = true
		s.FiredAt = fmt.Sprintf("step#%d(%s) op#%d %s %s/%x", s.TargetOrd, st.Caller, st.Ops, kind, k.name, key)
		panic(InjectedPanic{Where: s.FiredAt})
	}
}

func isAncestor(s *Spy, anc, id int) bool {
	for id != 0 {
		st := s.step(id)
		if st == nil {
			return false
		}
		if st.Parent == anc {
			return true
		}
		id = st.Parent
	}
	return false
}

func (k *spyKV) Get(key []byte) []byte { k.op("get", key, false); return k.KVStore.Get(key) }
func (k *spyKV) Has(key []byte) bool   { k.op("has", key, false); return k.KVStore.Has(key) }
func (k *spyKV) Set(key, value []byte) { k.op("set", key, true); k.KVStore.Set(key, value) }
func (k *spyKV) Delete(key []byte)     { k.op("delete", key, true); k.KVStore.Delete(key) }
func (k *spyKV) Iterator(start, end []byte) storetypes.Iterator {
	k.op("iterator", start, false)
	return k.KVStore.Iterator(start, end)
}
func (k *spyKV) ReverseIterator(start, end []byte) storetypes.Iterator {
	k.op("reverse-iterator", start, false)
	return k.KVStore.ReverseIterator(start, end)
}

// ---- canonical dump of a multistore ----

// Dump returns sha256 per store (name -> hex) and overall over all (key,value) pairs in iterator order.
func Dump(ms sdk.MultiStore, keys map[string]*storetypes.KVStoreKey) (per map[string]string, all string) {
	per = map[string]string{}
	names := make([]string, 0, len(keys))
	for n := range keys {
		names = append(names, n)
	}
	sort.Strings(names)
	tot := sha256.New()
	for _, n := range names {
		h := sha256.New()
		it := ms.GetKVStore(keys[n]).Iterator(nil, nil)
		for ; it.Valid(); it.Next() {
			k, v := it.Key(), it.Value()
			fmt.Fprintf(h, "%d:", len(k))
			h.Write(k)
			fmt.Fprintf(h, "%d:", len(v))
			h.Write(v)
		}
		it.Close()
		sum := hex.EncodeToString(h.Sum(nil))
		per[n] = sum
		tot.Write([]byte(n))
		tot.Write([]byte(sum))
	}
	return per, hex.EncodeToString(tot.Sum(nil))
}

// DiffStores lists the store names whose dumps differ.
func DiffStores(a, b map[string]string) []string {
	var out []string
	for n, h := range a {
		if b[n] != h {
			out = append(out, n)
		}
	}
	for n := range b {
		if _, ok := a[n]; !ok {
			out = append(out, n)
		}
	}
	sort.Strings(out)
	return out
}

// Pairs returns the raw (key -> value) content of one store.
func Pairs(ms sdk.MultiStore, key *storetypes.KVStoreKey) map[string]string {
	out := map[string]string{}
	it := ms.GetKVStore(key).Iterator(nil, nil)
	for ; it.Valid(); it.Next() {
		out[hex.EncodeToString(it.Key())] = hex.EncodeToString(it.Value())
	}
	it.Close()
	return out
}
